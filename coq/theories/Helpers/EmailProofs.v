From GV Require Import Base.Bytes Base.Utf8 Base.StrOps Helpers.Email Helpers.EmailSpec.
From Coq Require Import ZifyN ZifyNat ZifyBool.

(* ================= character classes ================= *)
Lemma local_char_byte : forall c, Bool.eqb (isValidLocalChar (b2n c)) (atext_b c || beq c c_dot) = true.
Proof. apply byte_sweep. vm_compute. reflexivity. Qed.

Lemma domain_char_byte : forall c, Bool.eqb (isValidDomainChar (b2n c)) (ldh_b c) = true.
Proof. apply byte_sweep. vm_compute. reflexivity. Qed.

Lemma atext_not_dot : forall c, (negb (atext_b c) || negb (beq c c_dot)) = true.
Proof. apply byte_sweep. vm_compute. reflexivity. Qed.

Lemma ldh_not_dot : forall c, (negb (ldh_b c) || negb (beq c c_dot)) = true.
Proof. apply byte_sweep. vm_compute. reflexivity. Qed.

Lemma rune_in_hi lo hi r : (hi < 128 -> 128 <= r -> rune_in lo hi r = false)%N.
Proof. unfold rune_in. lia. Qed.

Lemma local_char_ascii_only : ascii_only isValidLocalChar.
Proof.
  intros r Hr. unfold isValidLocalChar.
  rewrite !rune_in_hi by lia. cbn [orb].
  unfold isValidLocalSpecialChar, local_special_table. cbn [existsb].
  repeat match goal with |- context [N.eqb r ?k] => destruct (N.eqb_spec r k); [lia|] end.
  reflexivity.
Qed.

Lemma domain_char_ascii_only : ascii_only isValidDomainChar.
Proof.
  intros r Hr. unfold isValidDomainChar. rewrite !rune_in_hi by lia.
  destruct (N.eqb_spec r 45); [lia|reflexivity].
Qed.

Lemma local_chars_pure l : isValidLocalPartChars l = forallb (fun c => atext_b c || beq c c_dot) l.
Proof.
  unfold isValidLocalPartChars. rewrite forallb_runes by apply local_char_ascii_only.
  apply forallb_eq. intros c. apply Bool.eqb_prop. apply local_char_byte.
Qed.

Lemma domain_chars_pure l : isValidDomainLabelChars l = forallb ldh_b l.
Proof.
  unfold isValidDomainLabelChars. rewrite forallb_runes by apply domain_char_ascii_only.
  apply forallb_eq. intros c. apply Bool.eqb_prop. apply domain_char_byte.
Qed.

(* ================= pure forms of the helpers ================= *)
Definition first_is (s : bytes) (c : byte) : bool := match s with a :: _ => beq a c | [] => false end.
Definition last_is (s : bytes) (c : byte) : bool := beq (last s x00) c.

Lemma first_or_last_pure s c : s <> [] -> first_or_last_is s c = Ok (first_is s c || last_is s c).
Proof.
  intro N. unfold first_or_last_is, orr. rewrite idx_last by exact N.
  destruct s as [|a s]; [congruence|]. rewrite idx_0. cbn [bind first_is].
  unfold last_is. destruct (beq a c); reflexivity.
Qed.

Definition dotok (c : byte) : bool := atext_b c || beq c c_dot.

Definition fmt_b (l : bytes) : bool :=
  negb (is_empty l) && negb (first_is l c_dot) && negb (last_is l c_dot) && negb (has_dotdot l)
  && forallb dotok l.

Definition local_b (l : bytes) : bool := Nat.leb (length l) 64 && fmt_b l.

Lemma isValidLocalPart_pure l : isValidLocalPart l = Ok (local_b l).
Proof.
  unfold isValidLocalPart, local_b, fmt_b.
  destruct l as [|a l]; [reflexivity|]. cbn [is_empty negb orb andb].
  destruct (Nat.ltb 64 (length (a :: l))) eqn:L.
  - apply Nat.ltb_lt in L. destruct (Nat.leb_spec (length (a :: l)) 64); [lia|reflexivity].
  - apply Nat.ltb_ge in L. destruct (Nat.leb_spec (length (a :: l)) 64); [|lia]. cbn [andb].
    unfold isValidLocalPartFormat, andr. rewrite first_or_last_pure by congruence. cbn [bind].
    rewrite local_chars_pure. fold dotok.
    destruct (first_is (a :: l) c_dot); [reflexivity|].
    destruct (last_is (a :: l) c_dot); [reflexivity|]. cbn [orb negb andb bind].
    destruct (has_dotdot (a :: l)); reflexivity.
Qed.

(* ================= dot-separated atoms <-> the format tests ================= *)
Definition atom_b (a : bytes) : bool := negb (is_empty a) && forallb atext_b a.
Definition atoms_b (l : bytes) : bool := forallb atom_b (split_on c_dot l).

Lemma atoms_b_nil : atoms_b [] = false.
Proof. reflexivity. Qed.

Lemma atoms_b_dot r : atoms_b (c_dot :: r) = false.
Proof. unfold atoms_b. cbn [split_on]. rewrite beq_refl. reflexivity. Qed.

Lemma split_cons_nodot x r : beq x c_dot = false ->
  exists h t, split_on c_dot r = h :: t /\ split_on c_dot (x :: r) = (x :: h) :: t.
Proof.
  intro E. cbn [split_on]. rewrite E.
  pose proof (split_on_nonempty c_dot r) as N. destruct (split_on c_dot r) as [|h t]; [congruence|]. eauto.
Qed.

Lemma atoms_b_one x : beq x c_dot = false -> atoms_b [x] = atext_b x.
Proof. intro E. unfold atoms_b. cbn [split_on]. rewrite E. cbn. rewrite !andb_true_r. reflexivity. Qed.

Lemma atoms_b_then_dot x r : beq x c_dot = false -> atoms_b (x :: c_dot :: r) = atext_b x && atoms_b r.
Proof.
  intro E. unfold atoms_b. cbn [split_on]. rewrite E, beq_refl. cbn. rewrite andb_true_r. reflexivity.
Qed.

Lemma atoms_b_then_char x y r : beq x c_dot = false -> beq y c_dot = false ->
  atoms_b (x :: y :: r) = atext_b x && atoms_b (y :: r).
Proof.
  intros Ex Ey. unfold atoms_b.
  destruct (split_cons_nodot y r Ey) as (h & t & Hr & Hy).
  cbn [split_on] in *. rewrite Ex, Ey in *. rewrite Hr in *.
  cbn [forallb atom_b is_empty negb andb]. unfold atom_b. cbn [is_empty negb forallb andb].
  rewrite !andb_assoc. reflexivity.
Qed.

Lemma fmt_b_nil : fmt_b [] = false.
Proof. reflexivity. Qed.

Lemma fmt_b_dot r : fmt_b (c_dot :: r) = false.
Proof. unfold fmt_b. cbn [is_empty first_is negb andb]. rewrite beq_refl. reflexivity. Qed.

Lemma dotok_nodot x : beq x c_dot = false -> dotok x = atext_b x.
Proof. intro E. unfold dotok. rewrite E. apply orb_false_r. Qed.

Lemma fmt_b_one x : beq x c_dot = false -> fmt_b [x] = atext_b x.
Proof.
  intro E. unfold fmt_b, last_is. cbn [is_empty first_is last has_dotdot forallb negb andb].
  rewrite E, dotok_nodot by exact E. cbn. rewrite andb_true_r. reflexivity.
Qed.

Lemma has_dotdot_cons2 a b t : has_dotdot (a :: b :: t) = (beq a c_dot && beq b c_dot) || has_dotdot (b :: t).
Proof. reflexivity. Qed.

Ltac bool_cases :=
  repeat match goal with
         | |- context [beq ?a ?b] => destruct (beq a b)
         | |- context [atext_b ?a] => destruct (atext_b a)
         | |- context [dotok ?a] => destruct (dotok a)
         | |- context [has_dotdot ?a] => destruct (has_dotdot a)
         | |- context [forallb ?f ?a] => destruct (forallb f a)
         end; try reflexivity.

Lemma fmt_b_then_dot x r : beq x c_dot = false -> fmt_b (x :: c_dot :: r) = atext_b x && fmt_b r.
Proof.
  intro E. unfold fmt_b, last_is.
  assert (Hd : dotok c_dot = true) by reflexivity.
  destruct r as [|y r].
  - cbn [is_empty first_is forallb negb andb last]. rewrite beq_refl. cbn [negb andb]. rewrite !andb_false_r. reflexivity.
  - change (last (x :: c_dot :: y :: r) x00) with (last (y :: r) x00).
    rewrite !has_dotdot_cons2.
    cbn [is_empty first_is forallb negb andb]. rewrite E, Hd, (dotok_nodot x E), beq_refl.
    generalize (last (y :: r) x00) as z. intro z. bool_cases.
Qed.

Lemma fmt_b_then_char x y r : beq x c_dot = false -> beq y c_dot = false ->
  fmt_b (x :: y :: r) = atext_b x && fmt_b (y :: r).
Proof.
  intros Ex Ey. unfold fmt_b, last_is.
  change (last (x :: y :: r) x00) with (last (y :: r) x00).
  rewrite has_dotdot_cons2.
  cbn [is_empty first_is forallb negb andb]. rewrite Ex, Ey, (dotok_nodot x Ex).
  generalize (last (y :: r) x00) as z. intro z. bool_cases.
Qed.

Lemma atoms_fmt_n : forall n l, length l <= n -> atoms_b l = fmt_b l.
Proof.
  induction n as [|n IH]; intros l Hl.
  - destruct l; [reflexivity|simpl in Hl; lia].
  - destruct l as [|x r]; [reflexivity|].
    destruct (beq x c_dot) eqn:Ex.
    + apply beq_eq in Ex. subst. rewrite atoms_b_dot, fmt_b_dot. reflexivity.
    + destruct r as [|y r].
      * rewrite atoms_b_one, fmt_b_one by exact Ex. reflexivity.
      * destruct (beq y c_dot) eqn:Ey.
        -- apply beq_eq in Ey. subst. rewrite atoms_b_then_dot, fmt_b_then_dot by exact Ex.
           f_equal. apply IH. simpl in Hl. lia.
        -- rewrite atoms_b_then_char, fmt_b_then_char by assumption.
           f_equal. apply IH. simpl in *. lia.
Qed.

Lemma atoms_fmt l : atoms_b l = fmt_b l.
Proof. apply (atoms_fmt_n (length l)). lia. Qed.

Lemma atom_b_iff a : atom_b a = true <-> (a <> [] /\ Forall atext a).
Proof.
  unfold atom_b. rewrite andb_true_iff, forallb_forall, Forall_forall.
  destruct a; cbn [is_empty negb]; split; intros [H1 H2]; split; auto; congruence.
Qed.

Lemma atext_no_dot a : Forall atext a -> ~ In c_dot a.
Proof.
  intros F I. rewrite Forall_forall in F. specialize (F _ I). unfold atext in F.
  pose proof (atext_not_dot c_dot) as H. rewrite F, beq_refl in H. discriminate.
Qed.

Lemma local_b_iff l : local_b l = true <-> local_ok l.
Proof.
  unfold local_b, local_ok. rewrite andb_true_iff, <- atoms_fmt. unfold atoms_b. split.
  - intros [L A]. apply Nat.leb_le in L. split.
    + split; [|exact L]. destruct l; [discriminate A|simpl; lia].
    + exists (split_on c_dot l). split; [apply split_on_nonempty|]. split; [symmetry; apply join_split|].
      rewrite forallb_forall in A. apply Forall_forall. intros a Ha. apply atom_b_iff. apply A. exact Ha.
  - intros [[L1 L2] (atoms & N & E & F)]. split; [apply Nat.leb_le; exact L2|].
    assert (S : atoms = split_on c_dot l).
    { apply join_iff_split. split; [exact N|]. split; [|exact E].
      eapply Forall_impl; [|exact F]. intros a [_ Ha]. apply atext_no_dot. exact Ha. }
    rewrite <- S. apply forallb_forall. intros a Ha. apply atom_b_iff.
    rewrite Forall_forall in F. apply F. exact Ha.
Qed.

(* ================= domain part ================= *)
Definition label_b (l : bytes) : bool :=
  negb (is_empty l) && Nat.leb (length l) 63 && negb (first_is l c_hyphen) && negb (last_is l c_hyphen)
  && forallb ldh_b l.

Lemma isValidDomainLabel_pure l : isValidDomainLabel l = Ok (label_b l).
Proof.
  unfold isValidDomainLabel, label_b.
  destruct l as [|a l]; [reflexivity|]. cbn [is_empty negb orb andb].
  destruct (Nat.ltb 63 (length (a :: l))) eqn:L.
  - apply Nat.ltb_lt in L. destruct (Nat.leb_spec (length (a :: l)) 63); [lia|reflexivity].
  - apply Nat.ltb_ge in L. destruct (Nat.leb_spec (length (a :: l)) 63); [|lia]. cbn [andb].
    rewrite first_or_last_pure by congruence. cbn [bind]. rewrite domain_chars_pure.
    destruct (first_is (a :: l) c_hyphen); [reflexivity|].
    destruct (last_is (a :: l) c_hyphen); reflexivity.
Qed.

Lemma label_b_nonempty l : label_b l = true -> is_empty l = false.
Proof. destruct l; [discriminate|reflexivity]. Qed.

Lemma all_labels_pure ls : all_labels ls = Ok (forallb label_b ls).
Proof.
  induction ls as [|l t IH]; [reflexivity|]. cbn [all_labels forallb].
  destruct (is_empty l) eqn:E.
  - destruct l; [reflexivity|discriminate].
  - rewrite isValidDomainLabel_pure. cbn [bind]. destruct (label_b l); [exact IH|reflexivity].
Qed.

Definition labels_b (d : bytes) : bool :=
  forallb label_b (split_on c_dot d) && Nat.leb 2 (length (split_on c_dot d)).

Lemma validateDomainLabels_pure d : validateDomainLabels d = Ok (labels_b d).
Proof.
  unfold validateDomainLabels, labels_b. rewrite all_labels_pure. cbn [bind].
  destruct (forallb label_b (split_on c_dot d)); reflexivity.
Qed.

Lemma byte_hits_existsb q pos s : existsb (fun b => q (b2n b)) s = negb (match byte_hits q pos s with [] => true | _ => false end).
Proof.
  revert pos. induction s as [|b r IH]; intro pos; [reflexivity|]. cbn [existsb byte_hits].
  destruct (q (b2n b)); [reflexivity|]. apply IH.
Qed.

Lemma existsb_runes (q : N -> bool) : ascii_only q -> forall s, existsb q (runes s) = existsb (fun b => q (b2n b)) s.
Proof.
  intros Hq s. rewrite (byte_hits_existsb q 0 s). unfold runes, runes_pos.
  rewrite <- (rune_hits q Hq (length s) 0 s) by lia.
  induction (runes_from (length s) 0 s) as [|x l IH]; [reflexivity|].
  cbn [map existsb filter]. destruct (q (snd x)); [reflexivity|]. exact IH.
Qed.

Definition domain_b (d : bytes) : bool :=
  negb (is_empty d) && Nat.leb (length d) 253 && existsb (fun c => beq c c_dot) d
  && negb ((first_is d c_dot || last_is d c_dot) || (first_is d c_hyphen || last_is d c_hyphen))
  && labels_b d.

Lemma dot_ascii_only : ascii_only (N.eqb 46).
Proof. intros r Hr. destruct (N.eqb_spec 46 r); [lia|reflexivity]. Qed.

Lemma eqb46_dot : forall c, Bool.eqb (N.eqb 46 (b2n c)) (beq c c_dot) = true.
Proof. apply byte_sweep. vm_compute. reflexivity. Qed.

Lemma isValidDomainPart_pure d : isValidDomainPart d = Ok (domain_b d).
Proof.
  unfold isValidDomainPart, domain_b.
  destruct d as [|a d]; [reflexivity|]. cbn [is_empty negb orb andb].
  destruct (Nat.ltb 253 (length (a :: d))) eqn:L.
  - apply Nat.ltb_lt in L. destruct (Nat.leb_spec (length (a :: d)) 253); [lia|reflexivity].
  - apply Nat.ltb_ge in L. destruct (Nat.leb_spec (length (a :: d)) 253); [|lia]. cbn [andb].
    rewrite existsb_runes by apply dot_ascii_only.
    rewrite (existsb_eq (fun b => N.eqb 46 (b2n b)) (fun c => beq c c_dot)) by (intro c; apply Bool.eqb_prop, eqb46_dot).
    destruct (existsb (fun c => beq c c_dot) (a :: d)); [|reflexivity]. cbn [negb andb].
    unfold orr. rewrite !first_or_last_pure by congruence. cbn [bind].
    destruct (first_is (a :: d) c_dot || last_is (a :: d) c_dot); [reflexivity|]. cbn [bind orb].
    destruct (first_is (a :: d) c_hyphen || last_is (a :: d) c_hyphen); [reflexivity|]. cbn [negb andb].
    apply validateDomainLabels_pure.
Qed.

(* ---- list facts about split ---- *)
Lemma split_len_dot c s : Nat.leb 2 (length (split_on c s)) = existsb (fun x => beq x c) s.
Proof.
  induction s as [|x r IH]; [reflexivity|]. cbn [split_on existsb].
  pose proof (split_on_nonempty c r) as N.
  destruct (beq x c).
  - cbn [length]. destruct (split_on c r); [congruence|reflexivity].
  - cbn [orb]. rewrite <- IH. destruct (split_on c r) as [|h t]; [congruence|reflexivity].
Qed.

Lemma last_cons2 {A} (a b : A) l d : last (a :: b :: l) d = last (b :: l) d.
Proof. reflexivity. Qed.

Lemma last_split c (s : bytes) : s <> [] -> last (split_on c s) [] <> [] ->
  last s x00 = last (last (split_on c s) []) x00.
Proof.
  induction s as [|x r IH]; [congruence|]. intros _ H.
  pose proof (split_on_nonempty c r) as N.
  assert (EQ : split_on c (x :: r) = if beq x c then [] :: split_on c r
               else match split_on c r with h :: t => (x :: h) :: t | [] => [[x]] end) by reflexivity.
  rewrite EQ in *. clear EQ.
  destruct (split_on c r) as [|h t] eqn:S; [congruence|].
  destruct (beq x c) eqn:E.
  - rewrite last_cons2 in H |- *.
    destruct r as [|y r].
    + simpl in S. injection S as <- <-. simpl in H. congruence.
    + rewrite last_cons2. apply IH; [congruence|exact H].
  - destruct t as [|h2 t].
    + cbn [last] in *. assert (r = h) by (rewrite <- (join_split c r), S; reflexivity). subst. reflexivity.
    + rewrite !last_cons2 in H |- *.
      destruct r as [|y r]; [simpl in S; congruence|].
      rewrite last_cons2. rewrite <- (last_cons2 h h2 t []). apply IH; [congruence|].
      rewrite last_cons2. exact H.
Qed.

Lemma forallb_last {A} (f : A -> bool) (l : list A) d : l <> [] -> forallb f l = true -> f (last l d) = true.
Proof.
  induction l as [|a l IH]; [congruence|]. intros _ H. cbn [forallb] in H. apply andb_true_iff in H as [Ha Hl].
  destruct l as [|b l]; [exact Ha|]. change (last (a :: b :: l) d) with (last (b :: l) d). apply IH; [congruence|exact Hl].
Qed.

Lemma label_b_iff l : label_b l = true <-> label_ok l.
Proof.
  unfold label_b, label_ok. rewrite !andb_true_iff, !negb_true_iff, Nat.leb_le, forallb_forall, Forall_forall.
  unfold last_is, first_is. split.
  - intros [[[[E L] F] La] C]. destruct l as [|a l]; [discriminate|].
    split; [simpl in *; lia|]. split; [exact C|]. split.
    + cbn. intro X. injection X as ->. rewrite beq_refl in F. discriminate.
    + intro X. rewrite (last_indep (a :: l) x00 c_0) in La by congruence. rewrite X, beq_refl in La. discriminate.
  - intros [[L1 L2] [C [F La]]]. destruct l as [|a l]; [simpl in L1; lia|].
    repeat split; try reflexivity; try assumption.
    + apply beq_neq. intro X. subst. apply F. reflexivity.
    + apply beq_neq. intro X. apply La. rewrite <- X. apply last_indep. congruence.
Qed.

Lemma ldh_no_dot l : Forall ldh l -> ~ In c_dot l.
Proof.
  intros F I. rewrite Forall_forall in F. specialize (F _ I). unfold ldh in F.
  pose proof (ldh_not_dot c_dot) as H. rewrite F, beq_refl in H. discriminate.
Qed.

Lemma labels_first d : forallb label_b (split_on c_dot d) = true ->
  first_is d c_dot = false /\ first_is d c_hyphen = false.
Proof.
  destruct d as [|x r]; [auto|]. intro H. cbn [first_is].
  assert (EQ : split_on c_dot (x :: r) = if beq x c_dot then [] :: split_on c_dot r
               else match split_on c_dot r with h :: t => (x :: h) :: t | [] => [[x]] end) by reflexivity.
  rewrite EQ in H. clear EQ.
  destruct (beq x c_dot) eqn:E; [discriminate H|]. split; [reflexivity|].
  destruct (split_on c_dot r) as [|h t]; cbn [forallb] in H; apply andb_true_iff in H as [H _];
    unfold label_b in H; rewrite !andb_true_iff, !negb_true_iff in H; cbn [first_is] in H; tauto.
Qed.

Lemma labels_last d : d <> [] -> forallb label_b (split_on c_dot d) = true ->
  last_is d c_dot = false /\ last_is d c_hyphen = false.
Proof.
  intros N H.
  pose proof (forallb_last label_b (split_on c_dot d) [] (split_on_nonempty _ _) H) as HL.
  assert (NE : last (split_on c_dot d) [] <> []) by (intro X; rewrite X in HL; discriminate).
  unfold last_is. rewrite (last_split c_dot d N NE).
  set (l := last (split_on c_dot d) []) in *.
  unfold label_b in HL. rewrite !andb_true_iff, !negb_true_iff in HL. destruct HL as [[[[_ _] _] La] C].
  split; [|exact La].
  pose proof (forallb_last ldh_b l x00 NE C) as HC.
  pose proof (ldh_not_dot (last l x00)) as X. rewrite HC in X. cbn [negb orb] in X.
  apply negb_true_iff in X. exact X.
Qed.

Lemma domain_b_iff d : domain_b d = true <-> domain_ok d.
Proof.
  unfold domain_ok. split.
  - unfold domain_b, labels_b. rewrite !andb_true_iff. intros [[[[_ L] _] _] [F C]].
    apply Nat.leb_le in L, C. split; [exact L|].
    exists (split_on c_dot d). split; [exact C|]. split; [symmetry; apply join_split|].
    rewrite forallb_forall in F. apply Forall_forall. intros l Hl. apply label_b_iff. apply F. exact Hl.
  - intros [L (labels & C & E & F)].
    assert (S : labels = split_on c_dot d).
    { apply join_iff_split. split; [destruct labels; [simpl in C; lia|congruence]|]. split; [|exact E].
      eapply Forall_impl; [|exact F]. intros l (_ & Hl & _). apply ldh_no_dot. exact Hl. }
    assert (FB : forallb label_b (split_on c_dot d) = true).
    { rewrite <- S. apply forallb_forall. intros l Hl. apply label_b_iff. rewrite Forall_forall in F. apply F. exact Hl. }
    assert (C2 : Nat.leb 2 (length (split_on c_dot d)) = true) by (rewrite <- S; apply Nat.leb_le; exact C).
    assert (N : d <> []) by (intro X; rewrite X in C2; simpl in C2; discriminate).
    destruct (labels_first d FB) as [F1 F2]. destruct (labels_last d N FB) as [L1 L2].
    unfold domain_b, labels_b. rewrite FB, C2, F1, F2, L1, L2, <- split_len_dot, C2.
    destruct d; [congruence|]. cbn [is_empty negb orb andb]. rewrite !andb_true_r. apply Nat.leb_le. exact L.
Qed.

(* ================= findAtSymbol ================= *)
Definition is_at (r : N) : bool := N.eqb r 64.

Lemma at_ascii_only : ascii_only is_at.
Proof. intros r Hr. unfold is_at. destruct (N.eqb_spec r 64); [lia|reflexivity]. Qed.

Lemma is_at_byte c : is_at (b2n c) = beq c c_at.
Proof.
  assert (H : forall c, Bool.eqb (is_at (b2n c)) (beq c c_at) = true) by (apply byte_sweep; vm_compute; reflexivity).
  apply Bool.eqb_prop, H.
Qed.

Definition at_hits (s : bytes) : list nat := byte_hits is_at 0 s.

Lemma findAtSymbol_pure s :
  findAtSymbol s =
  let hits := at_hits s in
  let atIndex := match rev hits with i :: _ => Z.of_nat i | [] => (-1)%Z end in
  if negb (Nat.eqb (length hits) 1) || (atIndex <=? 0)%Z || (Z.of_nat (length s) - 1 <=? atIndex)%Z
  then (-1)%Z else atIndex.
Proof.
  unfold findAtSymbol, at_hits, runes_pos.
  rewrite <- (rune_hits is_at at_ascii_only (length s) 0 s) by lia.
  fold is_at.
  change (fun x : nat * N => (snd x =? 64)%N) with (fun x : nat * N => is_at (snd x)).
  set (h := filter (fun x : nat * N => is_at (snd x)) (runes_from (length s) 0 s)).
  cbv zeta. rewrite map_length, <- map_rev.
  destruct (rev h) as [|[i c] t]; reflexivity.
Qed.

(* exactly one hit at index i  <->  s = l ++ '@' :: d with no other '@' *)
Lemma byte_hits_none q pos s : byte_hits q pos s = [] <-> forallb (fun b => negb (q (b2n b))) s = true.
Proof.
  revert pos. induction s as [|b r IH]; intro pos; cbn [byte_hits forallb]; [tauto|].
  destruct (q (b2n b)); cbn [negb andb]; [split; discriminate|apply IH].
Qed.

Lemma byte_hits_one q pos s i :
  byte_hits q pos s = [i] <->
  exists l x d, s = l ++ x :: d /\ q (b2n x) = true /\ i = pos + length l /\
                forallb (fun b => negb (q (b2n b))) l = true /\ forallb (fun b => negb (q (b2n b))) d = true.
Proof.
  revert pos. induction s as [|b r IH]; intro pos; cbn [byte_hits].
  - split; [discriminate|]. intros (l & x & d & E & _). destruct l; discriminate.
  - destruct (q (b2n b)) eqn:Q.
    + split.
      * intro H. injection H as <- H. exists [], b, r. cbn. rewrite Nat.add_0_r. repeat split; auto.
        apply byte_hits_none in H. exact H.
      * intros (l & x & d & E & Qx & Hi & Fl & Fd). destruct l as [|a l].
        -- cbn in E. injection E as <- <-. cbn in Hi. rewrite Nat.add_0_r in Hi. subst i. f_equal.
           apply byte_hits_none. exact Fd.
        -- cbn in E. injection E as <- _. cbn in Fl. rewrite Q in Fl. discriminate.
    + rewrite IH. split.
      * intros (l & x & d & E & Qx & Hi & Fl & Fd). exists (b :: l), x, d. cbn. rewrite Q. cbn.
        repeat split; auto; [congruence|lia].
      * intros (l & x & d & E & Qx & Hi & Fl & Fd). destruct l as [|a l].
        -- cbn in E. injection E as <- <-. congruence.
        -- cbn in E. injection E as <- E. cbn in Fl. apply andb_true_iff in Fl as [_ Fl].
           exists l, x, d. repeat split; auto. cbn in Hi. lia.
Qed.

Lemma no_at_iff l : forallb (fun b => negb (is_at (b2n b))) l = true <-> ~ In c_at l.
Proof.
  rewrite forallb_forall. split.
  - intros H I. specialize (H _ I). rewrite is_at_byte, beq_refl in H. discriminate.
  - intros H x I. rewrite is_at_byte. apply negb_true_iff. apply beq_neq. intro X. subst. contradiction.
Qed.

(* ================= the entry point ================= *)
Definition email_b (s : bytes) : bool :=
  Nat.leb 5 (length s) && Nat.leb (length s) 254 &&
  match at_hits s with
  | [i] => Nat.ltb 0 i && Nat.ltb i (length s - 1) && local_b (firstn i s) && domain_b (skipn (i + 1) s)
  | _ => false
  end.

Lemma IsValidEmail_pure s : IsValidEmail s = Ok (email_b s).
Proof.
  unfold IsValidEmail, email_b.
  destruct (Nat.ltb (length s) 5) eqn:L5.
  { apply Nat.ltb_lt in L5. destruct (Nat.leb_spec 5 (length s)); [lia|reflexivity]. }
  apply Nat.ltb_ge in L5. destruct (Nat.leb_spec 5 (length s)); [|lia].
  destruct (Nat.ltb 254 (length s)) eqn:L254.
  { apply Nat.ltb_lt in L254. destruct (Nat.leb_spec (length s) 254); [lia|reflexivity]. }
  apply Nat.ltb_ge in L254. destruct (Nat.leb_spec (length s) 254); [|lia].
  cbn [orb andb]. rewrite findAtSymbol_pure. cbv zeta.
  destruct (at_hits s) as [|i [|j t]].
  - reflexivity.
  - cbn [rev app length Nat.eqb negb orb].
    destruct (Nat.ltb_spec 0 i), (Nat.ltb_spec i (length s - 1)); cbn [andb];
      repeat match goal with |- context [(?a <=? ?b)%Z] => destruct (Z.leb_spec a b); try lia end; cbn [orb];
      try reflexivity.
    destruct (Z.eqb_spec (Z.of_nat i) (-1)); [lia|].
    rewrite Nat2Z.id. unfold slice_to, slice_from.
    destruct (Nat.leb_spec i (length s)); [|lia]. destruct (Nat.leb_spec (i + 1) (length s)); [|lia].
    cbn [bind]. unfold andr. rewrite isValidLocalPart_pure, isValidDomainPart_pure. cbn [bind].
    destruct (local_b (firstn i s)); reflexivity.
  - cbn [length Nat.eqb negb orb]. reflexivity.
Qed.

Theorem IsValidEmail_total s : exists b, IsValidEmail s = Ok b.
Proof. eexists. apply IsValidEmail_pure. Qed.

Lemma is_at_true x : is_at (b2n x) = true -> x = c_at.
Proof. rewrite is_at_byte. apply beq_eq. Qed.

Theorem IsValidEmail_exact s : IsValidEmail s = Ok true <-> email_spec s.
Proof.
  rewrite IsValidEmail_pure. unfold email_b, email_spec. split.
  - intro H. apply Ok_inj in H. rewrite !andb_true_iff in H. destruct H as [[L5 L254] H].
    apply Nat.leb_le in L5, L254. split; [lia|].
    destruct (at_hits s) as [|i [|j t]] eqn:A; try discriminate.
    rewrite !andb_true_iff in H. destruct H as [[[I0 I1] Hl] Hd].
    apply byte_hits_one in A. destruct A as (l & x & d & E & Qx & Hi & Fl & Fd).
    apply is_at_true in Qx. subst x. cbn in Hi. subst i.
    assert (F1 : firstn (length l) s = l).
    { rewrite E, firstn_app, Nat.sub_diag, firstn_all. cbn. apply app_nil_r. }
    assert (F2 : skipn (length l + 1) s = d).
    { rewrite E, skipn_app. replace (length l + 1 - length l) with 1 by lia.
      rewrite skipn_all2 by lia. reflexivity. }
    rewrite F1 in Hl. rewrite F2 in Hd.
    exists l, d. split; [exact E|]. split; [apply no_at_iff; exact Fl|]. split; [apply no_at_iff; exact Fd|].
    split; [apply local_b_iff; exact Hl | apply domain_b_iff; exact Hd].
  - intros [[L5 L254] (l & d & E & Nl & Nd & Hl & Hd)]. f_equal.
    apply local_b_iff in Hl. apply domain_b_iff in Hd.
    assert (A : at_hits s = [length l]).
    { apply byte_hits_one. exists l, c_at, d.
      split; [exact E|]. split; [rewrite is_at_byte; apply beq_refl|]. split; [reflexivity|].
      split; apply no_at_iff; assumption. }
    rewrite A.
    assert (F1 : firstn (length l) s = l).
    { rewrite E, firstn_app, Nat.sub_diag, firstn_all. cbn. apply app_nil_r. }
    assert (F2 : skipn (length l + 1) s = d).
    { rewrite E, skipn_app. replace (length l + 1 - length l) with 1 by lia.
      rewrite skipn_all2 by lia. reflexivity. }
    rewrite F1, F2, Hl, Hd.
    assert (Ll : 1 <= length l) by (destruct l; [discriminate Hl|simpl; lia]).
    assert (Ld : 1 <= length d) by (destruct d; [discriminate Hd|simpl; lia]).
    assert (Ls : length s = length l + 1 + length d) by (rewrite E, app_length; simpl; lia).
    destruct (Nat.leb_spec 5 (length s)); [|lia]. destruct (Nat.leb_spec (length s) 254); [|lia].
    destruct (Nat.ltb_spec 0 (length l)); [|lia]. destruct (Nat.ltb_spec (length l) (length s - 1)); [|lia].
    reflexivity.
Qed.

(* any byte outside ASCII makes the address invalid *)
Theorem IsValidEmail_non_ascii s c : In c s -> (128 <= b2n c)%N -> IsValidEmail s = Ok false.
Proof.
  intros I Hc. destruct (IsValidEmail_total s) as [b Hb]. rewrite Hb. f_equal.
  destruct b; [|reflexivity]. exfalso.
  apply IsValidEmail_exact in Hb. destruct Hb as [_ (l & d & E & _ & _ & Hl & Hd)].
  assert (A : forall x, (128 <= b2n x)%N -> atext_b x = false /\ ldh_b x = false /\ beq x c_dot = false /\ beq x c_at = false).
  { intros x Hx.
    assert (G : forall x, (N.ltb (b2n x) 128 || (negb (atext_b x) && negb (ldh_b x) && negb (beq x c_dot) && negb (beq x c_at))) = true)
      by (apply byte_sweep; vm_compute; reflexivity).
    specialize (G x). destruct (N.ltb_spec (b2n x) 128); [lia|]. cbn [orb] in G.
    rewrite !andb_true_iff, !negb_true_iff in G. tauto. }
  destruct (A c Hc) as (A1 & A2 & A3 & A4).
  rewrite E in I. apply in_app_or in I. destruct I as [I|[I|I]].
  - apply local_b_iff in Hl. unfold local_b, fmt_b in Hl. rewrite !andb_true_iff in Hl.
    destruct Hl as [_ [_ F]]. rewrite forallb_forall in F. specialize (F _ I). unfold dotok in F.
    rewrite A1, A3 in F. discriminate.
  - subst c. rewrite beq_refl in A4. discriminate.
  - destruct Hd as [_ (labels & _ & Ed & F)].
    assert (X : forall ls, In c (join c_dot ls) -> exists lb, In lb ls /\ In c lb).
    { induction ls as [|a t IH]; [simpl; tauto|]. destruct t as [|b t].
      - simpl. intros. exists a. auto.
      - rewrite join_cons by congruence. intro J. apply in_app_or in J. destruct J as [J|[J|J]].
        + exists a. simpl. auto.
        + subst c. rewrite beq_refl in A3. discriminate.
        + destruct (IH J) as (lb & Hin & Hc'). exists lb. split; [right; exact Hin|exact Hc']. }
    rewrite Ed in I. destruct (X _ I) as (lb & Hin & Hc').
    rewrite Forall_forall in F. destruct (F _ Hin) as (_ & Fl & _).
    rewrite Forall_forall in Fl. specialize (Fl _ Hc'). unfold ldh in Fl. congruence.
Qed.
