(* Executable mirror of /repo/validation/validationhelper/email.go, function by function.
   Loops over indices are structural recursion; explicit indexings go through [idx] so that an
   out-of-range access is a Panic; range-over-string loops go through the rune decoder. *)
From GV Require Import Base.Bytes Base.Utf8 Base.StrOps.
Local Open Scope N_scope.

Definition rune_in (lo hi c : N) : bool := (lo <=? c) && (c <=? hi).

(* case '.', '_', '-', '+', '=', '!', '#', '$', '%', '&', '\'', '*', '/', '?', '^', '`', '{', '|', '}', '~' *)
Definition local_special_table : list N :=
  [46; 95; 45; 43; 61; 33; 35; 36; 37; 38; 39; 42; 47; 63; 94; 96; 123; 124; 125; 126].

Definition isValidLocalSpecialChar (c : N) : bool := existsb (N.eqb c) local_special_table.

Definition isValidLocalChar (c : N) : bool :=
  if rune_in 97 122 c || rune_in 65 90 c || rune_in 48 57 c then true
  else isValidLocalSpecialChar c.

Definition isValidDomainChar (c : N) : bool :=
  rune_in 97 122 c || rune_in 65 90 c || rune_in 48 57 c || (c =? 45).

(* atIndex/atCount over `for i, c := range email` *)
Definition findAtSymbol (email : bytes) : Z :=
  let hits := filter (fun x => snd x =? 64) (runes_pos email) in
  let atCount := length hits in
  let atIndex := match rev hits with (i, _) :: _ => Z.of_nat i | [] => (-1)%Z end in
  if negb (Nat.eqb atCount 1) || (atIndex <=? 0)%Z || (Z.of_nat (length email) - 1 <=? atIndex)%Z
  then (-1)%Z else atIndex.

Fixpoint has_dotdot (s : bytes) : bool :=
  match s with
  | a :: (b :: _) as t => (beq a c_dot && beq b c_dot) || has_dotdot t
  | _ => false
  end.

Definition first_or_last_is (s : bytes) (c : byte) : res bool :=
  orr (f <- idx s 0 ;; Ok (beq f c)) (l <- idx s (length s - 1) ;; Ok (beq l c)).

Definition isValidLocalPartFormat (local : bytes) : res bool :=
  e <- first_or_last_is local c_dot ;;
  if e then Ok false else Ok (negb (has_dotdot local)).

Definition isValidLocalPartChars (local : bytes) : bool := forallb isValidLocalChar (runes local).

Definition isValidLocalPart (local : bytes) : res bool :=
  if is_empty local || Nat.ltb 64 (length local) then Ok false
  else andr (isValidLocalPartFormat local) (Ok (isValidLocalPartChars local)).

Definition isValidDomainLabelChars (label : bytes) : bool := forallb isValidDomainChar (runes label).

Definition isValidDomainLabel (label : bytes) : res bool :=
  if is_empty label || Nat.ltb 63 (length label) then Ok false
  else e <- first_or_last_is label c_hyphen ;;
       if e then Ok false else Ok (isValidDomainLabelChars label).

(* one iteration per label boundary: `if i == start { return false }` then isValidDomainLabel *)
Fixpoint all_labels (ls : list bytes) : res bool :=
  match ls with
  | [] => Ok true
  | l :: t =>
      if is_empty l then Ok false
      else v <- isValidDomainLabel l ;; if negb v then Ok false else all_labels t
  end.

Definition validateDomainLabels (domain : bytes) : res bool :=
  let labels := split_on c_dot domain in
  v <- all_labels labels ;;
  if negb v then Ok false else Ok (Nat.leb 2 (length labels)).

Definition isValidDomainPart (domain : bytes) : res bool :=
  if is_empty domain || Nat.ltb 253 (length domain) then Ok false
  else if negb (existsb (N.eqb 46) (runes domain)) then Ok false
  else e <- orr (first_or_last_is domain c_dot) (first_or_last_is domain c_hyphen) ;;
       if e then Ok false else validateDomainLabels domain.

Definition IsValidEmail (email : bytes) : res bool :=
  if Nat.ltb (length email) 5 || Nat.ltb 254 (length email) then Ok false
  else
    let atIndex := findAtSymbol email in
    if (atIndex =? -1)%Z then Ok false
    else
      local <- slice_to email (Z.to_nat atIndex) ;;
      domain <- slice_from email (Z.to_nat atIndex + 1) ;;
      andr (isValidLocalPart local) (isValidDomainPart domain).
