From GV Require Import Base.Bytes Helpers.Uuid Helpers.UuidSpec.

(* ---------- under the length test every index the code uses is in range ---------- *)
Definition g (s : bytes) (i : nat) : byte := nth i s x00.

Lemma idx_g s i : i < length s -> idx s i = Ok (g s i).
Proof.
  intro H. unfold idx, g. destruct (nth_error s i) eqn:E.
  - erewrite nth_error_nth; eauto.
  - apply nth_error_None in E. lia.
Qed.

Lemma nth_error_g s i : i < length s -> nth_error s i = Some (g s i).
Proof.
  intro H. unfold g. destruct (nth_error s i) eqn:E.
  - erewrite nth_error_nth; eauto.
  - apply nth_error_None in E. lia.
Qed.

Lemma all_at_ok p s is :
  (forall i, In i is -> i < length s) ->
  all_at p s is = Ok (forallb (fun i => is_hyphen_pos i || p (g s i)) is).
Proof.
  induction is as [|i r IH]; intro H; cbn [all_at forallb]; [reflexivity|].
  destruct (is_hyphen_pos i) eqn:Hh; cbn [orb andb].
  - apply IH. intros j Hj. apply H. right; exact Hj.
  - rewrite idx_g by (apply H; left; reflexivity). cbn [bind].
    destruct (p (g s i)); cbn [negb andb].
    + apply IH. intros j Hj. apply H. right; exact Hj.
    + reflexivity.
Qed.

Lemma seq36 (s : bytes) i : length s = 36 -> In i (seq 0 36) -> i < length s.
Proof. intros L H. apply in_seq in H. lia. Qed.

Definition hy_b s := beq (g s 8) c_hyphen && (beq (g s 13) c_hyphen && (beq (g s 18) c_hyphen && beq (g s 23) c_hyphen)).
Definition hx_b s := forallb (fun i => is_hyphen_pos i || isValidHexChar (g s i)) (seq 0 36).
Definition mx_b s := forallb (fun i => is_hyphen_pos i || is_f (g s i)) (seq 0 36).
Definition vv_b s :=
  bytes_eqb s nil_uuid || mx_b s ||
  (negb (blt (g s 14) c_1 || blt c_5 (g s 14)) && is_variant (g s 19)).

Definition uuid_b s := Nat.eqb (length s) 36 && hy_b s && hx_b s && vv_b s.

Lemma IsValidUUID_pure s : IsValidUUID s = Ok (uuid_b s).
Proof.
  unfold IsValidUUID, uuid_b.
  destruct (Nat.eqb (length s) 36) eqn:L; cbn [negb andb]; [|reflexivity].
  apply Nat.eqb_eq in L.
  unfold hasValidHyphens, at_is, andr.
  rewrite !idx_g by lia. cbn [bind].
  fold (hy_b s).
  assert (Hy : (x <- (if beq (g s 8) c_hyphen
                      then x0 <- (if beq (g s 13) c_hyphen
                                  then x1 <- (if beq (g s 18) c_hyphen then Ok (beq (g s 23) c_hyphen) else Ok false) ;; Ok x1
                                  else Ok false) ;; Ok x0
                      else Ok false) ;; Ok x) = Ok (hy_b s)).
  { unfold hy_b. destruct (beq (g s 8) c_hyphen), (beq (g s 13) c_hyphen), (beq (g s 18) c_hyphen), (beq (g s 23) c_hyphen); reflexivity. }
  assert (Hy' : (if beq (g s 8) c_hyphen
                 then if beq (g s 13) c_hyphen
                      then if beq (g s 18) c_hyphen then Ok (beq (g s 23) c_hyphen) else Ok false
                      else Ok false
                 else Ok false) = Ok (hy_b s)).
  { unfold hy_b. destruct (beq (g s 8) c_hyphen), (beq (g s 13) c_hyphen), (beq (g s 18) c_hyphen), (beq (g s 23) c_hyphen); reflexivity. }
  rewrite Hy'. cbn [bind].
  destruct (hy_b s); cbn [negb andb]; [|reflexivity].
  unfold hasValidHexChars. rewrite all_at_ok by (intros; eapply seq36; eauto).
  cbn [bind]. fold (hx_b s).
  destruct (hx_b s); cbn [negb andb]; [|reflexivity].
  unfold isValidUUIDVersionAndVariant, vv_b, isMaxUUID.
  rewrite all_at_ok by (intros; eapply seq36; eauto). fold (mx_b s). cbn [bind].
  destruct (bytes_eqb s nil_uuid); cbn [orb]; [reflexivity|].
  destruct (mx_b s); cbn [orb]; [reflexivity|].
  rewrite !idx_g by lia. cbn [bind].
  destruct (blt (g s 14) c_1 || blt c_5 (g s 14)); reflexivity.
Qed.

(* ---------- totality: no input panics ---------- *)
Theorem IsValidUUID_total s : exists b, IsValidUUID s = Ok b.
Proof. eexists. apply IsValidUUID_pure. Qed.

(* ---------- byte-level facts, by sweeps over the finite domain ---------- *)
Lemma hex_iff c : isValidHexChar c = true <-> hex_digit c.
Proof.
  unfold isValidHexChar, hex_digit, in_rng, ble.
  rewrite !orb_true_iff, !andb_true_iff, !N.leb_le. tauto.
Qed.

Lemma hexfold_hex_b : forall a b, (negb (beq (hexfold a) (hexfold b)) || Bool.eqb (isValidHexChar a) (isValidHexChar b)) = true.
Proof. apply byte_sweep2. vm_compute. reflexivity. Qed.

Lemma hexfold_eq_b (k : byte) (Hk : hexfold k = k) (Hk2 : forallb (fun a => negb (beq (hexfold a) k) || beq a k || in_rng c_A c_F a) all_bytes = true) :
  True.
Proof. exact I. Qed.

Lemma hexfold_hyphen a : hexfold a = c_hyphen <-> a = c_hyphen.
Proof.
  assert (H : (Bool.eqb (beq (hexfold a) c_hyphen) (beq a c_hyphen)) = true).
  { revert a. apply byte_sweep. vm_compute. reflexivity. }
  apply Bool.eqb_prop in H. rewrite <- !beq_eq. rewrite H. tauto.
Qed.

Lemma hexfold_zero a : hexfold a = c_0 <-> a = c_0.
Proof.
  assert (H : (Bool.eqb (beq (hexfold a) c_0) (beq a c_0)) = true).
  { revert a. apply byte_sweep. vm_compute. reflexivity. }
  apply Bool.eqb_prop in H. rewrite <- !beq_eq. rewrite H. tauto.
Qed.

Lemma hexfold_f a : hexfold a = c_f <-> is_f a = true.
Proof.
  assert (H : (Bool.eqb (beq (hexfold a) c_f) (is_f a)) = true).
  { revert a. apply byte_sweep. vm_compute. reflexivity. }
  apply Bool.eqb_prop in H. rewrite <- beq_eq. rewrite H. tauto.
Qed.

Lemma variant_iff r : is_variant r = true <->
  (hexfold r = c_8 \/ hexfold r = c_9 \/ hexfold r = c_a \/ hexfold r = c_b).
Proof.
  assert (H : Bool.eqb (is_variant r)
                (beq (hexfold r) c_8 || beq (hexfold r) c_9 || beq (hexfold r) c_a || beq (hexfold r) c_b) = true).
  { revert r. apply byte_sweep. vm_compute. reflexivity. }
  apply Bool.eqb_prop in H. rewrite H, !orb_true_iff, !beq_eq. tauto.
Qed.

Lemma version_iff v : negb (blt v c_1 || blt c_5 v) = true <-> (b2n c_1 <= b2n v <= b2n c_5)%N.
Proof.
  unfold blt. rewrite negb_true_iff, orb_false_iff, !N.ltb_ge. tauto.
Qed.

(* ---------- shape <-> the hyphen and hex tests ---------- *)
Lemma hyphen_pos_In i : is_hyphen_pos i = true <-> In i hyphen_positions.
Proof.
  unfold is_hyphen_pos, hyphen_positions. rewrite !orb_true_iff, !Nat.eqb_eq. simpl.
  intuition congruence.
Qed.

Lemma shape_iff s : length s = 36 -> (hy_b s && hx_b s = true <-> uuid_shape s).
Proof.
  intro L. unfold uuid_shape. rewrite andb_true_iff. split.
  - intros [Hy Hx]. split; [exact L|]. intros i c E.
    assert (Hi : i < 36) by (rewrite <- L; apply nth_error_Some; congruence).
    rewrite nth_error_g in E by lia. injection E as <-.
    unfold hx_b in Hx. rewrite forallb_forall in Hx.
    specialize (Hx i). rewrite in_seq in Hx. specialize (Hx ltac:(lia)).
    unfold hy_b in Hy. rewrite !andb_true_iff, !beq_eq in Hy.
    destruct Hy as (H8 & H13 & H18 & H23).
    split.
    + intros [<-|[<-|[<-|[<-|[]]]]]; assumption.
    + intro N. rewrite <- hyphen_pos_In in N. apply not_true_is_false in N. rewrite N in Hx.
      apply hex_iff. exact Hx.
  - intros [_ H]. split.
    + unfold hy_b. rewrite !andb_true_iff, !beq_eq.
      repeat split; (eapply H; [apply nth_error_g; lia | simpl; tauto]).
    + unfold hx_b. apply forallb_forall. intros i Hi. apply in_seq in Hi.
      destruct (is_hyphen_pos i) eqn:Hh; [reflexivity|]. cbn [orb].
      apply hex_iff. eapply H; [apply nth_error_g; lia|].
      rewrite <- hyphen_pos_In. congruence.
Qed.

(* under the shape, "every hex digit is f/F" <-> "case-folded, it is the max UUID" *)
Lemma max_iff s : length s = 36 -> hy_b s = true -> (mx_b s = true <-> map hexfold s = max_uuid).
Proof.
  intros L Hy.
  unfold hy_b in Hy. rewrite !andb_true_iff, !beq_eq in Hy. destruct Hy as (H8 & H13 & H18 & H23).
  unfold mx_b. rewrite forallb_forall. split.
  - intro H.
    apply nth_ext with (d := x00) (d' := x00).
    + rewrite map_length, L. reflexivity.
    + intros i Hi. rewrite map_length, L in Hi.
      rewrite (nth_indep _ x00 (hexfold x00)) by (rewrite map_length; lia).
      rewrite map_nth. fold (g s i).
      specialize (H i ltac:(apply in_seq; lia)).
      destruct (is_hyphen_pos i) eqn:Hh.
      * apply hyphen_pos_In in Hh. destruct Hh as [<-|[<-|[<-|[<-|[]]]]];
          match goal with |- hexfold (g s ?k) = _ => replace (g s k) with c_hyphen by congruence end; reflexivity.
      * cbn [orb] in H. apply hexfold_f in H. rewrite H.
        do 36 (destruct i as [|i]; [try discriminate Hh; reflexivity|]). lia.
  - intros E i Hi. apply in_seq in Hi.
    destruct (is_hyphen_pos i) eqn:Hh; [reflexivity|]. cbn [orb].
    apply hexfold_f. unfold g. rewrite <- map_nth, (nth_indep _ (hexfold x00) x00) by (rewrite map_length; lia).
    rewrite E.
    do 36 (destruct i as [|i]; [try discriminate Hh; reflexivity|]). lia.
Qed.

Theorem IsValidUUID_exact s : IsValidUUID s = Ok true <-> uuid_spec s.
Proof.
  rewrite IsValidUUID_pure. unfold uuid_b, uuid_spec. split.
  - intro H. injection H as H. rewrite !andb_true_iff in H. destruct H as [[[L Hy] Hx] Hv].
    apply Nat.eqb_eq in L. split.
    + apply shape_iff; [exact L|]. rewrite Hy, Hx. reflexivity.
    + unfold vv_b in Hv. rewrite !orb_true_iff in Hv. destruct Hv as [[Hn|Hm]|Hr].
      * left. apply bytes_eqb_eq. exact Hn.
      * right; left. apply max_iff; assumption.
      * right; right. apply andb_true_iff in Hr as [Hver Hvar].
        exists (g s 14), (g s 19). rewrite !nth_error_g by lia.
        repeat split; try (apply version_iff; exact Hver). apply variant_iff; exact Hvar.
  - intros [Hs Hc]. pose proof Hs as [L _]. apply shape_iff in Hs; [|exact L].
    apply andb_true_iff in Hs as [Hy Hx]. f_equal.
    rewrite L, Hy, Hx. cbn [Nat.eqb andb].
    unfold vv_b. rewrite !orb_true_iff. destruct Hc as [Hn|[Hm|Hr]].
    + left; left. apply bytes_eqb_eq. exact Hn.
    + left; right. apply max_iff; assumption.
    + right. destruct Hr as (v & r & Ev & Er & Hver & Hvar).
      rewrite nth_error_g in Ev, Er by lia. injection Ev as <-. injection Er as <-.
      apply andb_true_iff. split; [apply version_iff; exact Hver | apply variant_iff; exact Hvar].
Qed.

(* ---------- case-insensitivity ---------- *)
Lemma same_case_length s s' : same_upto_hex_case s s' -> length s = length s'.
Proof. induction 1; simpl; congruence. Qed.

Lemma same_case_g s s' i : same_upto_hex_case s s' -> i < length s -> hexfold (g s i) = hexfold (g s' i).
Proof.
  intros H. revert i. induction H as [|a b s s' Hab _ IH]; intros i Hi; [simpl in Hi; lia|].
  destruct i as [|i]; [exact Hab|]. apply IH. simpl in Hi. lia.
Qed.

Lemma same_case_map s s' : same_upto_hex_case s s' -> map hexfold s = map hexfold s'.
Proof. induction 1; simpl; congruence. Qed.

Lemma hexfold_nil_uuid : map hexfold nil_uuid = nil_uuid.
Proof. vm_compute. reflexivity. Qed.

Lemma nil_iff s : s = nil_uuid <-> map hexfold s = nil_uuid.
Proof.
  split; [intros ->; apply hexfold_nil_uuid|].
  intro H.
  assert (L : length s = 36) by (rewrite <- (map_length hexfold), H; reflexivity).
  apply nth_ext with (d := x00) (d' := x00); [rewrite L; reflexivity|].
  intros i Hi. rewrite L in Hi.
  assert (E : hexfold (nth i s x00) = nth i nil_uuid x00).
  { rewrite <- H, (nth_indep (map hexfold s) x00 (hexfold x00)) by (rewrite map_length; lia). symmetry; apply map_nth. }
  let n := eval vm_compute in nil_uuid in change nil_uuid with n in *.
  do 36 (destruct i as [|i];
         [cbn [nth] in E |- *;
          first [apply (proj1 (hexfold_zero _)) in E | apply (proj1 (hexfold_hyphen _)) in E]; exact E|]).
  lia.
Qed.

Theorem uuid_spec_case s s' : same_upto_hex_case s s' -> uuid_spec s -> uuid_spec s'.
Proof.
  intros H [[L Hsh] Hc].
  pose proof (same_case_length _ _ H) as LL.
  split.
  - split; [lia|]. intros i c E.
    assert (Hi' : i < length s') by (apply nth_error_Some; congruence).
    assert (Hi : i < 36) by lia.
    rewrite nth_error_g in E by lia. injection E as <-.
    assert (Hf : hexfold (g s i) = hexfold (g s' i)) by (apply same_case_g; [exact H|lia]).
    destruct (Hsh i (g s i) (nth_error_g s i ltac:(lia))) as [Hh Hx]. split.
    + intro Hin. specialize (Hh Hin). rewrite Hh in Hf. symmetry in Hf. apply (proj1 (hexfold_hyphen _)) in Hf. exact Hf.
    + intro Hn. specialize (Hx Hn). apply hex_iff in Hx. apply hex_iff.
      pose proof (hexfold_hex_b (g s i) (g s' i)) as Hb. rewrite Hf, beq_refl in Hb. cbn [negb orb] in Hb.
      apply Bool.eqb_prop in Hb. congruence.
  - destruct Hc as [Hn|[Hm|Hr]].
    + left. apply (proj2 (nil_iff _)). rewrite <- (same_case_map _ _ H). apply (proj1 (nil_iff _)). exact Hn.
    + right; left. rewrite <- (same_case_map _ _ H). exact Hm.
    + right; right. destruct Hr as (v & r & Ev & Er & Hver & Hvar).
      rewrite nth_error_g in Ev, Er by lia. injection Ev as <-. injection Er as <-.
      exists (g s' 14), (g s' 19). rewrite !nth_error_g by lia.
      assert (F14 : hexfold (g s 14) = hexfold (g s' 14)) by (apply same_case_g; [exact H|lia]).
      assert (F19 : hexfold (g s 19) = hexfold (g s' 19)) by (apply same_case_g; [exact H|lia]).
      repeat split; try (rewrite <- F19; exact Hvar).
      * assert (X : forall a b, (negb (beq (hexfold a) (hexfold b)) || negb (N.leb (b2n c_1) (b2n a) && N.leb (b2n a) (b2n c_5)) || beq a b) = true).
        { apply byte_sweep2. vm_compute. reflexivity. }
        specialize (X (g s 14) (g s' 14)). rewrite F14, beq_refl in X. cbn [negb orb] in X.
        destruct Hver as [V1 V2]. apply N.leb_le in V1, V2. rewrite V1, V2 in X. cbn in X. apply beq_eq in X. rewrite <- X. apply N.leb_le. exact V1.
      * assert (X : forall a b, (negb (beq (hexfold a) (hexfold b)) || negb (N.leb (b2n c_1) (b2n a) && N.leb (b2n a) (b2n c_5)) || beq a b) = true).
        { apply byte_sweep2. vm_compute. reflexivity. }
        specialize (X (g s 14) (g s' 14)). rewrite F14, beq_refl in X. cbn [negb orb] in X.
        destruct Hver as [V1 V2]. apply N.leb_le in V1, V2. rewrite V1, V2 in X. cbn in X. apply beq_eq in X. rewrite <- X. apply N.leb_le. exact V2.
Qed.

Lemma same_case_sym s s' : same_upto_hex_case s s' -> same_upto_hex_case s' s.
Proof. induction 1; constructor; auto. Qed.

Theorem IsValidUUID_case_insensitive s s' :
  same_upto_hex_case s s' -> IsValidUUID s = IsValidUUID s'.
Proof.
  intro H. rewrite !IsValidUUID_pure. f_equal.
  destruct (uuid_b s) eqn:A, (uuid_b s') eqn:B; try reflexivity.
  - assert (X : IsValidUUID s = Ok true) by (rewrite IsValidUUID_pure, A; reflexivity).
    apply IsValidUUID_exact in X. apply (uuid_spec_case _ _ H) in X. apply IsValidUUID_exact in X.
    rewrite IsValidUUID_pure, B in X. discriminate.
  - assert (X : IsValidUUID s' = Ok true) by (rewrite IsValidUUID_pure, B; reflexivity).
    apply IsValidUUID_exact in X. apply (uuid_spec_case _ _ (same_case_sym _ _ H)) in X. apply IsValidUUID_exact in X.
    rewrite IsValidUUID_pure, A in X. discriminate.
Qed.
