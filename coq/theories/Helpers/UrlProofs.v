From GV Require Import Base.Bytes Base.StrOps Helpers.Url Helpers.UrlSpec.

(* ---------- membership ---------- *)
Lemma mem_In x l : mem x l = true <-> In x l.
Proof.
  unfold mem. rewrite existsb_exists. split.
  - intros [y [Hy E]]. apply bytes_eqb_eq in E. subst. exact Hy.
  - intro H. exists x. split; [exact H|apply bytes_eqb_refl].
Qed.

Lemma incl_b (a b : list bytes) : forallb (fun x => mem x b) a = true -> forall x, In x a -> In x b.
Proof. intros H x Hx. rewrite forallb_forall in H. apply mem_In. apply H. exact Hx. Qed.

(* the code's tables coincide with the specification's lists *)
Lemma tables_valid x : In x validSchemes <-> In x (host_schemes ++ opaque_schemes).
Proof.
  split; apply incl_b; vm_compute; reflexivity.
Qed.

Lemma tables_nohost x : In x schemesNotRequiringHost <-> In x opaque_schemes.
Proof. split; apply incl_b; vm_compute; reflexivity. Qed.

Lemma host_not_opaque x : In x host_schemes -> ~ In x opaque_schemes.
Proof.
  intros H O.
  assert (D : forallb (fun h => negb (mem h opaque_schemes)) host_schemes = true) by (vm_compute; reflexivity).
  rewrite forallb_forall in D. specialize (D _ H). apply mem_In in O. rewrite O in D. discriminate.
Qed.

(* every supported scheme is non-empty, made of scheme characters, without ':' *)
Definition scheme_tail_ok (c : byte) : bool := isValidSchemeChar c && negb (beq c c_colon).
Definition good_scheme (sc : bytes) : bool :=
  match sc with [] => false | _ :: t => forallb scheme_tail_ok t end.

Lemma supported_good sc : In sc (host_schemes ++ opaque_schemes) -> good_scheme sc = true.
Proof.
  assert (G : forallb good_scheme (host_schemes ++ opaque_schemes) = true) by (vm_compute; reflexivity).
  rewrite forallb_forall in G. apply G.
Qed.

(* ---------- findSchemeEnd ---------- *)
Lemma fse_found p t i : forallb scheme_tail_ok p = true -> fse (p ++ c_colon :: t) i = Z.of_nat (i + length p).
Proof.
  revert i. induction p as [|c p IH]; intros i H.
  - cbn [app fse length]. rewrite beq_refl. f_equal. lia.
  - cbn [forallb] in H. apply andb_true_iff in H as [Hc Hp].
    unfold scheme_tail_ok in Hc. apply andb_true_iff in Hc as [H1 H2]. apply negb_true_iff in H2.
    cbn [app fse]. rewrite H2, H1. cbn [negb]. rewrite IH by exact Hp. f_equal. simpl. lia.
Qed.

Lemma fse_inv r i : fse r i = (-1)%Z \/
  exists p t, r = p ++ c_colon :: t /\ forallb scheme_tail_ok p = true /\ fse r i = Z.of_nat (i + length p).
Proof.
  revert i. induction r as [|c r IH]; intro i; [left; reflexivity|].
  cbn [fse]. destruct (beq c c_colon) eqn:E.
  - right. apply beq_eq in E. subst. exists [], r. cbn [app forallb length]. split; [reflexivity|]. split; [reflexivity|]. f_equal. lia.
  - destruct (isValidSchemeChar c) eqn:V; cbn [negb]; [|left; reflexivity].
    destruct (IH (S i)) as [H|(p & t & Hr & Hp & Hf)]; [left; exact H|].
    right. exists (c :: p), t. subst r. split; [reflexivity|]. split.
    + cbn [forallb]. unfold scheme_tail_ok at 1. rewrite V, E. exact Hp.
    + rewrite Hf. f_equal. simpl. lia.
Qed.

(* ---------- indexing into scheme ++ ':' :: rest ---------- *)
Lemma idx_app_right (a b : bytes) k : idx (a ++ b) (length a + k) = idx b k.
Proof.
  unfold idx. rewrite nth_error_app2 by lia. replace (length a + k - length a) with k by lia. reflexivity.
Qed.

Definition host_b (rest : bytes) : bool :=
  match rest with
  | a :: b :: h :: _ => beq a c_slash && beq b c_slash && isValidHostStart h
  | _ => false
  end.

Lemma withHost_pure sc rest :
  validateSchemeWithHost (sc ++ c_colon :: rest) (length sc) = Ok (host_b rest).
Proof.
  unfold validateSchemeWithHost. rewrite app_length. cbn [length].
  destruct rest as [|a [|b [|h t]]]; cbn [length host_b].
  - destruct (Nat.leb_spec (length sc + 1) (length sc + 3)); [reflexivity|lia].
  - destruct (Nat.leb_spec (length sc + 2) (length sc + 3)); [reflexivity|lia].
  - destruct (Nat.leb_spec (length sc + 3) (length sc + 3)); [reflexivity|lia].
  - destruct (Nat.leb_spec (length sc + S (S (S (S (length t))))) (length sc + 3)); [lia|].
    rewrite !idx_app_right. cbn [idx nth_error bind].
    destruct (beq a c_slash); cbn [negb andb]; [|reflexivity].
    destruct (beq b c_slash); cbn [negb andb]; reflexivity.
Qed.

Lemma withoutHost_pure sc rest :
  validateSchemeWithoutHost (sc ++ c_colon :: rest) (length sc) = negb (is_empty rest).
Proof.
  unfold validateSchemeWithoutHost. rewrite app_length. cbn [length].
  destruct rest as [|a t]; cbn [length is_empty negb].
  - destruct (Nat.leb_spec (length sc + 1) (length sc + 1)); [reflexivity|lia].
  - destruct (Nat.leb_spec (length sc + S (S (length t))) (length sc + 1)); [lia|reflexivity].
Qed.

(* ---------- the entry point on a decomposed input ---------- *)
Definition decided (sc rest : bytes) : bool :=
  mem sc validSchemes && negb (hasInvalidChars (sc ++ c_colon :: rest)) &&
  (if mem sc schemesNotRequiringHost then negb (is_empty rest) else host_b rest).

Lemma IsValidURL_decomposed a p t :
  forallb scheme_tail_ok p = true ->
  IsValidURL ((a :: p) ++ c_colon :: t) = Ok (decided (a :: p) t).
Proof.
  intro Hp. unfold IsValidURL. cbn [app is_empty findSchemeEnd].
  rewrite fse_found by exact Hp.
  destruct (Z.eqb_spec (Z.of_nat (1 + length p)) (-1)); [lia|].
  destruct (Z.eqb_spec (Z.of_nat (1 + length p)) 0); [lia|]. cbn [orb].
  rewrite Nat2Z.id. unfold slice_to. cbn [length].
  rewrite app_length. cbn [length].
  destruct (Nat.leb_spec (1 + length p) (S (length p + S (length t)))); [|lia]. cbn [bind].
  change (1 + length p) with (S (length p)). cbn [firstn].
  rewrite firstn_app, Nat.sub_diag, firstn_all. cbn [firstn]. rewrite app_nil_r.
  unfold decided. destruct (mem (a :: p) validSchemes); cbn [negb andb]; [|reflexivity].
  change (a :: p ++ c_colon :: t) with ((a :: p) ++ c_colon :: t).
  destruct (hasInvalidChars ((a :: p) ++ c_colon :: t)); cbn [negb andb]; [reflexivity|].
  change (S (length p)) with (length (a :: p)).
  destruct (mem (a :: p) schemesNotRequiringHost).
  - rewrite withoutHost_pure. reflexivity.
  - apply withHost_pure.
Qed.

Theorem IsValidURL_total s : exists b, IsValidURL s = Ok b.
Proof.
  destruct s as [|a r]; [exists false; reflexivity|].
  destruct (fse_inv r 1) as [H|(p & t & Hr & Hp & Hf)].
  - exists false. unfold IsValidURL. cbn [is_empty findSchemeEnd]. rewrite H. reflexivity.
  - subst r. eexists. apply (IsValidURL_decomposed a p t Hp).
Qed.

Lemma forbidden_same c : invalid_char c = forbidden_b c.
Proof. reflexivity. Qed.

Lemma host_start_same c : isValidHostStart c = host_start_b c.
Proof.
  unfold isValidHostStart, host_start_b, is_letter. reflexivity.
Qed.

Lemma no_invalid_iff s : hasInvalidChars s = false <-> Forall (fun c => forbidden_b c = false) s.
Proof.
  unfold hasInvalidChars. rewrite Forall_forall. split.
  - intros H c Hc. destruct (forbidden_b c) eqn:F; [|reflexivity].
    assert (X : existsb invalid_char s = true) by (apply existsb_exists; exists c; split; [exact Hc|exact F]).
    congruence.
  - intro H. destruct (existsb invalid_char s) eqn:E; [|reflexivity].
    apply existsb_exists in E as [c [Hc F]]. rewrite forbidden_same, (H c Hc) in F. discriminate.
Qed.

Theorem IsValidURL_exact s : IsValidURL s = Ok true <-> url_spec s.
Proof.
  split.
  - intro H. destruct s as [|a r]; [discriminate H|].
    destruct (fse_inv r 1) as [F|(p & t & Hr & Hp & Hf)].
    { unfold IsValidURL in H. cbn [is_empty findSchemeEnd] in H. rewrite F in H. discriminate H. }
    subst r. change (a :: p ++ c_colon :: t) with ((a :: p) ++ c_colon :: t) in *.
    rewrite (IsValidURL_decomposed a p t Hp) in H. apply Ok_inj in H.
    unfold decided in H. rewrite !andb_true_iff, negb_true_iff in H. destruct H as [[M I] D].
    exists (a :: p), t. split; [reflexivity|]. split; [apply no_invalid_iff; exact I|].
    apply mem_In, tables_valid in M.
    destruct (mem (a :: p) schemesNotRequiringHost) eqn:O.
    + right. split; [apply tables_nohost, mem_In; exact O|]. destruct t; [discriminate D|congruence].
    + left. split.
      * apply in_app_or in M. destruct M as [M|M]; [exact M|].
        apply tables_nohost, mem_In in M. congruence.
      * destruct t as [|x [|y [|h t]]]; try discriminate D. cbn [host_b] in D.
        rewrite !andb_true_iff, !beq_eq in D. destruct D as [[-> ->] Hh].
        exists h, t. split; [reflexivity|]. rewrite <- host_start_same. exact Hh.
  - intros (sc & rest & E & I & D).
    assert (S : In sc (host_schemes ++ opaque_schemes)).
    { apply in_or_app. destruct D as [[D _]|[D _]]; auto. }
    pose proof (supported_good sc S) as G. destruct sc as [|a p]; [discriminate G|]. cbn [good_scheme] in G.
    subst s. rewrite (IsValidURL_decomposed a p rest G). f_equal.
    unfold decided. apply no_invalid_iff in I. rewrite I.
    apply tables_valid, mem_In in S. rewrite S. cbn [negb andb].
    destruct D as [[Hh (h & t & -> & Hs)]|[Ho Hr]].
    + destruct (mem (a :: p) schemesNotRequiringHost) eqn:O.
      * apply mem_In, tables_nohost in O. exfalso. exact (host_not_opaque _ Hh O).
      * cbn [host_b]. rewrite !beq_refl, host_start_same, Hs. reflexivity.
    + apply tables_nohost, mem_In in Ho. rewrite Ho. destruct rest; [congruence|reflexivity].
Qed.
