(* Extraction of the executable models. ExtrOcamlBasic only: bool, option, unit, list,
   prod, sumbool, sumor map to OCaml's; N, Z, positive, nat, byte stay inductive.
   Compiled with the working directory set to /verif/ocaml (no Extraction Output Directory). *)
From Coq Require Import ExtrOcamlBasic.
From GV Require Import Base.Bytes Helpers.Uuid.

Extraction "model.ml"
  all_bytes b2n
  isValidHexChar hasValidHyphens hasValidHexChars isMaxUUID isValidUUIDVersionAndVariant IsValidUUID.
