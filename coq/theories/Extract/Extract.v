(* Extraction of the executable models. ExtrOcamlBasic only: bool, option, unit, list,
   prod, sumbool, sumor map to OCaml's; N, Z, positive, nat, byte stay inductive.
   Compiled with the working directory set to /verif/ocaml (no Extraction Output Directory). *)
From Coq Require Import ExtrOcamlBasic.
From GV Require Import Base.Bytes Base.Utf8 Base.StrOps Helpers.Uuid Helpers.Email Helpers.Url Helpers.Alnum Misc.Migrate Misc.Middleware.

Extraction "model.ml"
  all_bytes b2n
  isValidHexChar hasValidHyphens hasValidHexChars isMaxUUID isValidUUIDVersionAndVariant IsValidUUID
  decode_rune runes rune_count
  findAtSymbol isValidLocalPart isValidLocalPartFormat isValidLocalPartChars isValidLocalChar
  isValidLocalSpecialChar isValidDomainPart validateDomainLabels isValidDomainLabel
  isValidDomainLabelChars isValidDomainChar IsValidEmail
  findSchemeEnd isValidSchemeChar hasInvalidChars validateSchemeWithoutHost validateSchemeWithHost
  isValidHostStart IsValidURL
  IsValidAlpha IsNumeric
  migrate_content migrate_count
  mw_eval.
