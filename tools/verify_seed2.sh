#!/bin/sh
# verify_seed2.sh <worktree> <dir with patch.diff + demo.sh>
# Confirms: patch applies and compiles; with it the whole suite passes and demo.sh fails; without it demo.sh passes.
WT=$1; D=$2
export GOFLAGS=-mod=mod GOPROXY=off
cd "$WT" || exit 2
git checkout -q -- . && git clean -fdq
git apply "$D/patch.diff" || { echo "PATCH-DOES-NOT-APPLY"; exit 1; }
go build ./... || { echo "DOES-NOT-COMPILE"; git checkout -q -- .; exit 1; }
S=0
for m in . ./test; do (cd $m && go test -mod=mod -vet=off -count=1 ./... >/tmp/seed_suite_$$.log 2>&1) || S=1; done
[ $S = 0 ] && echo "suite-with-patch: PASS" || { echo "suite-with-patch: FAIL"; tail -20 /tmp/seed_suite_$$.log; }
timeout 300 bash "$D/demo.sh" "$WT" >/tmp/seed_demo1_$$.log 2>&1 && echo "demo-with-patch: PASS (bad)" || echo "demo-with-patch: FAIL (good)"
git checkout -q -- . && git clean -fdq
timeout 300 bash "$D/demo.sh" "$WT" >/tmp/seed_demo2_$$.log 2>&1 && echo "demo-without-patch: PASS (good)" || { echo "demo-without-patch: FAIL (bad)"; tail -5 /tmp/seed_demo2_$$.log; }
git checkout -q -- . && git clean -fdq
