#!/usr/bin/env python3
"""keep_seed.py <Cxx> <new id, e.g. C03-3> <detected_by text>: copy /tmp/seedout/<Cxx>/ (patch, demo, notes) into seeded/<id>/ with meta.json"""
import json, os, shutil, sys
prop, sid, det = sys.argv[1], sys.argv[2], sys.argv[3]
src = "/tmp/seedout/" + prop
dst = os.path.join(os.path.dirname(os.path.dirname(os.path.abspath(__file__))), "seeded", sid)
os.makedirs(dst, exist_ok=True)
notes = json.load(open(os.path.join(src, "notes.json")))
shutil.copy(os.path.join(src, "patch.diff"), dst)
demo = "demo.sh" if os.path.exists(os.path.join(src, "demo.sh")) else "demo_test.go"
shutil.copy(os.path.join(src, demo), dst)
how = ("tools/verify_seed2.sh" if demo == "demo.sh" else "tools/verify_seed.sh") + \
      " in a scratch worktree: patch applies and compiles; the full pinned suite passes with the patch; the demonstration fails with it and passes without it"
meta = {"property": prop, "summary": notes.get("summary"), "needs": notes.get("needs"), "failing_scenario": notes.get("failing_scenario"),
        "expected": notes.get("expected"), "observed": notes.get("observed"), "demo": notes.get("demo"),
        "confirmed": {"how": how, "by": "main session"}, "detected_by": det}
json.dump(meta, open(os.path.join(dst, "meta.json"), "w"), indent=1)
print("kept", dst)
