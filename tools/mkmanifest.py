#!/usr/bin/env python3
"""Regenerates MANIFEST.json from the CLAIMS table below (one place, so the file is always valid).
Edit the table in this file when a property's check is added or its level text changes."""
import json
import os

V = os.path.dirname(os.path.dirname(os.path.abspath(__file__)))
props = [json.loads(l) for l in open(os.path.join(V, "properties.jsonl"))]

RECOG_NOTE = ("Trusted: Coq kernel, extraction (ExtrOcamlBasic only), OCaml driver, hand-written Gallina mirror of the Go "
              "file (validated function by function by the differential run), input generator. Print Assumptions: Closed "
              "under the global context for every theorem of the property file.")
RECOG_TECH = "Coq proof (model = spec for all byte strings) + differential correspondence model vs rebuilt Go"

CLAIMS = {
    "C11": dict(
        text="Coq theorems C11_exact / C11_total / C11_non_ascii_rejected: the Gallina mirror of email.go accepts exactly "
             "the address grammar of the property (email_spec), never panics and rejects every string containing a non-ASCII "
             "byte, for every byte string of any length. The mirror is tied to /repo on every run: the rebuilt IsValidEmail and "
             "the extracted model run on ~1.3e6 structured inputs (exhaustive short strings over a class alphabet, every byte "
             "at each role, length families at 63/64/253/254), each internal helper is compared with its model namesake and the "
             "character-class leaves are compared over all 0x110000 runes. A disagreement on the exported function is a concrete "
             "input on which /repo violates the spec.",
        ref="DESIGN.md §5 C11", note=RECOG_NOTE, technique=RECOG_TECH),
    "C12": dict(
        text="Coq theorems C12_exact / C12_total / C12_tables: the Gallina mirror of url.go accepts exactly url_spec (31 explicit "
             "schemes, forbidden bytes, '//' + host-start byte or non-empty opaque part), never panics, and its scheme tables equal "
             "the specification's lists. Tied to /repo on every run by the differential on ~3.8e5 structured inputs (every scheme x "
             "separator x first host byte, near-miss schemes, forbidden byte at every position) plus per-helper and exhaustive leaf "
             "comparisons.",
        ref="DESIGN.md §5 C12", note=RECOG_NOTE, technique=RECOG_TECH),
    "C13": dict(
        text="Coq theorems C13_exact / C13_total / C13_case_insensitive: the Gallina mirror of uuid.go accepts exactly the specified "
             "language, never panics and is insensitive to the case of hexadecimal letters, for every byte string. Tied to /repo on every "
             "run by the differential on >1e6 structured inputs (all single-byte substitutions, position pairs, lengths, casings) plus "
             "per-helper comparisons; any disagreement is a concrete input on which /repo violates the spec.",
        ref="DESIGN.md §5 C13", note=RECOG_NOTE, technique=RECOG_TECH),
}

NOT_YET = ("check not built yet (work in progress; will be claimed once its Coq model, theorems and correspondence "
           "check exist)")

checks = []
for p in props:
    pid = p["id"]
    if pid not in CLAIMS:
        continue
    c = CLAIMS[pid]
    checks.append({
        "property_id": pid,
        "quick_cmd": "bin/check %s --tier quick" % pid,
        "thorough_cmd": "bin/check %s --tier thorough" % pid,
        "evidence_file": "/verif/evidence/%s.json" % pid,
        "replay_cmd_template": "bin/check %s --replay {path}" % pid,
        "engine": "coq-model+differential",
        "level_claimed": {"category": c.get("category", "proof"), "text": c["text"], "design_ref": c["ref"]},
        "level_note": c["note"],
        "technique": c["technique"],
    })
na = [{"property_id": p["id"], "reason": NOT_YET} for p in props if p["id"] not in CLAIMS]
m = {
    "version": 1,
    "setup_cmd": "bin/setup",
    "hooks": {"guard": "verif",
              "enable": "go build -tags verif (add-only file validation/validationhelper/verif_export.go)",
              "baseline_off_cmd": "bin/baseline_off",
              "source_commits": ["15ffbc7", "6c6906e"],
              "add_only": True},
    "engines": [{"name": "coq-model+differential", "path": "/verif/bin/check",
                 "serves_properties": [c["property_id"] for c in checks],
                 "kind_free_text": "Coq 8.16.1 development (coq/), extracted OCaml model (ocaml/), Go harness (harness/), "
                                   "python orchestrator (bin/check, lib/)"}],
    "checks": checks,
    "not_applicable": na,
    "notes": "See DESIGN.md. fix: commits in /repo are listed in known_findings.json (status fixed).",
}
json.dump(m, open(os.path.join(V, "MANIFEST.json"), "w"), indent=1)
print("claimed:", [c["property_id"] for c in checks])
