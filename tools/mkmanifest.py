#!/usr/bin/env python3
"""Regenerates MANIFEST.json from the CLAIMS table below (one place, so the file is always valid).
Edit the table in this file when a property's check is added or its level text changes."""
import json
import os

V = os.path.dirname(os.path.dirname(os.path.abspath(__file__)))
props = [json.loads(l) for l in open(os.path.join(V, "properties.jsonl"))]

RECOG_NOTE = ("Trusted: Coq kernel, extraction (ExtrOcamlBasic only), OCaml driver, hand-written Gallina mirror of the Go "
              "file (validated function by function by the differential run), input generator. Print Assumptions: Closed "
              "under the global context for every theorem of the property file.")
RECOG_TECH = "Coq proof (model = spec for all byte strings) + differential correspondence model vs rebuilt Go"

CLAIMS = {
    "C11": dict(
        text="Coq theorems C11_exact / C11_total / C11_non_ascii_rejected: the Gallina mirror of email.go accepts exactly "
             "the address grammar of the property (email_spec), never panics and rejects every string containing a non-ASCII "
             "byte, for every byte string of any length. The mirror is tied to /repo on every run: the rebuilt IsValidEmail and "
             "the extracted model run on ~1.3e6 structured inputs (exhaustive short strings over a class alphabet, every byte "
             "at each role, length families at 63/64/253/254), each internal helper is compared with its model namesake and the "
             "character-class leaves are compared over all 0x110000 runes. A disagreement on the exported function is a concrete "
             "input on which /repo violates the spec.",
        ref="DESIGN.md §5 C11", note=RECOG_NOTE, technique=RECOG_TECH),
    "C12": dict(
        text="Coq theorems C12_exact / C12_total / C12_tables: the Gallina mirror of url.go accepts exactly url_spec (31 explicit "
             "schemes, forbidden bytes, '//' + host-start byte or non-empty opaque part), never panics, and its scheme tables equal "
             "the specification's lists. Tied to /repo on every run by the differential on ~3.8e5 structured inputs (every scheme x "
             "separator x first host byte, near-miss schemes, forbidden byte at every position) plus per-helper and exhaustive leaf "
             "comparisons.",
        ref="DESIGN.md §5 C12", note=RECOG_NOTE, technique=RECOG_TECH),
    "C13": dict(
        text="Coq theorems C13_exact / C13_total / C13_case_insensitive: the Gallina mirror of uuid.go accepts exactly the specified "
             "language, never panics and is insensitive to the case of hexadecimal letters, for every byte string. Tied to /repo on every "
             "run by the differential on >1e6 structured inputs (all single-byte substitutions, position pairs, lengths, casings) plus "
             "per-helper comparisons; any disagreement is a concrete input on which /repo violates the spec.",
        ref="DESIGN.md §5 C13", note=RECOG_NOTE, technique=RECOG_TECH),
}

GEN_NOTE = "Trusted: Coq kernel (vm_compute / vm_cast_no_check in the per-run certificates), Flocq + stdlib Reals axioms for float order (Print Assumptions output is copied verbatim into the evidence), the translator harness/internal/golite, the scenario renderer harness/internal/decl (Go source and Coq sdecl of the same declaration), go/constant for literal values, the reflection driver, net.ParseIP as oracle; imports.Process/format.Source and go/types resolution are not modelled."
GEN_TECH = ("Coq model of the generator (gen_file) and of the emitted code (GoLite exec_file) + per-run kernel-checked certificates "
            "that the rebuilt govalid's output equals the model's + differential of compiled validators vs model vs specification")


def gen_claim(pid, text, ref):
    CLAIMS[pid] = dict(text=text, ref=ref, note=GEN_NOTE, technique=GEN_TECH)


gen_claim("C01", "Theorems C01_int / C01_float32 / C01_float64 / C01_nan_fails_all: Go's comparison operators on in-range integers and on "
          "IEEE-754 values (Flocq) hold iff the mathematical relation holds (extended reals; NaN fails all four), and the rule's verdict in "
          "the specification is the negated relation. Tie: for 168 synthesized declarations per quick run (12 numeric types + byte/rune x "
          "top-level/nested/named x gt/gte/lt/lte x several bounds) the kernel certifies that the file emitted by the rebuilt govalid equals "
          "gen_file of the model, and the compiled validators agree with the GoLite semantics and with expected(d, v) on boundary lattices "
          "(all 256 values of 8-bit types).", "DESIGN.md §5 C01")
gen_claim("C02", "Theorems C02_exact / C02_no_condition_no_verdict: the condition emitted for required, on any value of the field's type, is true exactly when the value is the type's zero value. Per-run certificates (emitted file = gen_file d) and differential of compiled code vs GoLite semantics vs the specification "
          "is_zero_value for every documented type of `required` (all integer kinds, floats incl. -0.0/NaN, complex, bool, string, pointer, "
          "interface, any, error, func, slice/map/chan nil vs empty, arrays of length 0/1/3, named and alias types over each), top-level and nested.",
          "DESIGN.md §5 C02")
gen_claim("C03", "Theorems rule_condition_exact / C03_meaning: the emitted condition decides the comparison of the code-point count (rune_count). Per-run certificates and differential for minlength/maxlength/length over strings built from 1-4 byte runes, lone continuation "
          "bytes, 0xFF and truncated lead bytes; the rune decoder model (Base/Utf8.v) is compared with Go's utf8 package on ~4e5 strings by C06/C11 runs.",
          "DESIGN.md §5 C03")
gen_claim("C04", "Theorems rule_condition_exact / C04_meaning: the emitted condition decides the comparison of len(). Per-run certificates and differential for minitems/maxitems on slices, maps, channels (buffered count), arrays (declared size) and "
          "named types over them, nil vs empty, lengths 0..7, top-level and nested.", "DESIGN.md §5 C04")
gen_claim("C05", "Theorems rule_condition_exact / C05_string (+ the numeric case inside cond_sound): the emitted conjunction accepts exactly the trimmed items. Per-run certificates and differential for enum on string / integer / float / named fields: padded items, duplicates, items with "
          "quotes and backslashes, non-ASCII items, hexadecimal/octal/underscored numeric items; values from the list, case changes, prefixes, +-1, zero.",
          "DESIGN.md §5 C05")
gen_claim("C06", "Theorems IsValidAlpha_exact / IsNumeric_exact (Helpers/AlnumProofs.v) and C11-C13 for the recognizers; per-run certificates and "
          "differential for the seven format markers at top level, combined with required/length markers, and nested two levels deep; ipv4/ipv6 "
          "are defined by net.ParseIP (oracle, evaluated by the standard library on the corpus strings).", "DESIGN.md §5 C06")
gen_claim("C07", "Theorem C07_report_exact (gen_exact): for every declaration in the decidable guard (outside the known-finding classes D7-D10) and every well-typed receiver, the generated code returns nil iff no rule is violated and otherwise exactly one entry per violated rule with the right Path, Type and Value, in order; C07_report_exact_typed (the same without the 'ill-typed' alternative, under the decidable params_ok: every marker parameter in the documented language); C07_nil_receiver; C07_sentinels; refuted witnesses for D7 and D10 by computation. validator_sound turns each per-run certificate into that theorem about the file govalid actually emitted. Per-run certificates and differential on random structs (1-12 fields, 0-4 markers, nesting <= 2): the compiled validator's report "
          "equals expected(d, v) as a multiset of (Path, Type, Value-matches-field), nil receiver yields ErrNil<T>, and errors.Is over every exported "
          "sentinel (directly and through %w) agrees with the report. Known findings D7-D10 are recognized by the Coq class predicates of Gen/Guard.v.",
          "DESIGN.md §5 C07")
gen_claim("C08", "Theorems C08_no_missing_declaration (for EVERY declaration: each error variable a check copies, and the nil sentinel, is declared by the var block), C08_no_duplicate_declaration_flat (flat structs whose field names do not differ by a trailing Min/Max: declared names pairwise distinct, from a table of the 19 rule suffixes), C08_file_shape, C08_generation_total, C08_documented_parameters_are_well_typed / C08_condition_well_typed (no emitted condition is ill-typed for documented parameters), C08_output_files_distinct, C08_emitted_file (the same about the emitted file given the run's certificate), refuted witnesses for D9/D20; both conclusions are also evaluated on every translated real file. Beyond the naming scheme the Go compiler is the decision procedure: per-run certificates plus every corpus package (several structs and files per package, up to "
          "40 fields, nesting <= 3, parameters needing escaping) must build together with compile-time assertions that *T implements govalid.Validator "
          "and govalid.ContextValidator, pass go vet and be gofmt-clean; 46 CEL rules covering every import heuristic must generate, build and vet. Partial w.r.t. the full Go type checker, imports.Process and format.Source (not modelled); no distinctness theorem for nested structs.", "DESIGN.md §5 C08")
gen_claim("C09", "Theorems C09_no_gap (a violated written rule is never answered with nil), C09_inapplicable_harmless, on top of gen_exact. Per-run certificates and differential over declaration shapes: struct-level vs per-field placement of the same markers (compared "
          "entry by entry), multi-name fields, type ( ... ) groups mixing struct and non-struct specs, embedded fields, deep nesting, 100 fields; "
          "every written rule violated by some case must be reported.", "DESIGN.md §5 C09")
gen_claim("C15", "Theorem C15_contract, for EVERY GoLite program (hence every translated file, without the generator model): the run returns exactly what ctx.Err() returned at the poll that observed done, or is identical to the run with context.Background() and then every Err() call returned nil; C15_poll_precedes_every_group. Per-run certificates; the compiled ValidateContext is run with a context that turns done at its k-th Err() call for every k up to "
          "past the undisturbed count (Canceled and DeadlineExceeded): result must be exactly ctx.Err() when observed, identical to Validate() otherwise; "
          "the number of Err() calls must equal the GoLite semantics' prediction; all four entry points must agree.", "DESIGN.md §5 C15")
gen_claim("C16", "Theorems C16_no_shared_writes (any program without ASetGlobalValue leaves package-level state untouched; the side condition is evaluated on every translated file) and C16_generated_code_is_read_only. Per-run certificates (the emitted code contains no write to the receiver or to a package-level sentinel: ASetGlobalValue is representable "
          "and absent); deep fingerprints of receiver and sentinels before/after every case; race-detector builds of the driver (goroutines validating shared "
          "and own values) and of the runtime helpers. Partial: the Go memory model and the race detector's coverage are outside the model.", "DESIGN.md §5 C16")
gen_claim("C17", "Theorem C17_no_panic: any program with the nil guard never panics, for every receiver, field value and context (conditions evaluate to a boolean or are ill-typed; the side condition is evaluated on every translated file). Theorems C11_total / C12_total / C13_total (recognizers never panic, all byte strings); per-run certificates; adversarial lattice "
          "(NaN, infinities, extreme integers, nil/empty/huge collections, nil pointers and interfaces, nil receiver) plus 1 MiB strings and >4e6 malformed "
          "recognizer inputs run through the rebuilt code under recover().", "DESIGN.md §5 C17")
gen_claim("C19", "Theorem C19_valid_path_alloc_free (from gen_exact: executed allocation sites = 2 x violated rules, so 0 on a valid value). Per-run certificates; the GoLite semantics counts executed allocation sites (Append, boxing) and predicts 0 on every valid value; "
          "testing.AllocsPerRun for Validate(), Validate<T>(t), Validate<T>Context(Background, t) must be 0 for every valid value of the C01-C07 corpora and "
          "for long strings / large collections. Partial: escape analysis and stdlib internals are measured, not modelled.", "DESIGN.md §5 C19")
CLAIMS["C10"] = dict(
    category="proof",
    text="Theorem C10_translation_sound (Cel/Sound.v): for every CEL expression of the proved fragment (Cel/Typing.v cty + Cel/Sound.v stage predicate), every "
         "struct value of the declared field types and any behaviour of the shared standard-library oracles, the condition produced by the translator "
         "model (Cel/Translate.v, a node-for-node mirror of convertASTToGo) evaluates in the Go semantics (Cel/GoSem.v: typed integers with wrap-around, "
         "untyped constants, panics) to a boolean that is the negation of the reference verdict (Cel/CelSem.v: cel-go's interpreter with error "
         "absorption) whenever the reference yields a boolean; it never panics and is never ill-typed. C10_emitted_condition_sound transfers this to the "
         "condition govalid actually emitted whenever the kernel accepts its certificate; C10_unrenderable_stops_generation: constructs without a rendering "
         "stop generation. Tie on every run (360 quick / 2500 thorough expressions x value grids): cel-go's AST and go/parser's tree of every emitted "
         "condition are translated into Coq terms; certificate emitted = model for EVERY generated expression (in or out of the fragment); generator "
         "accepts <-> model generates; ceval vs cel-go and geval vs the compiled validator on every binding; compiled validator vs cel-go on every boolean "
         "point. The fragment includes matches() with run-time patterns, membership in list-valued expressions (slices.Contains and the generic loop with its "
         "fresh variable) and nested comprehension macros. Outside it (ternary, maps, size of strings, narrow arithmetic, division by a non-constant, "
         "comparison of double constants) only the behavioural comparison applies; the open classes D14, D15, D16, D23, D34 are exhibited as _refuted "
         "theorems and witnessed on every run. The certificate obligation is stated for outputs that compile.",
    ref="DESIGN.md §5 C10", note="Trusted: Coq kernel (vm_compute certificates); Reals axioms via Flocq (named in the evidence); oracle hypotheses on regexp/time; "
    "hand-written models of cel-go's interpreter and of Go expression semantics, both compared with the implementations on every run; harness translators "
    "(internal/celx); cel-go's parser/checker as shared front end; the Go compiler as judge of loud failure.",
    technique="Coq proof of translation soundness (logical relation between CEL values and Go values over a typed fragment) + per-run kernel-checked "
              "certificates that the rebuilt govalid's emitted condition equals the translator model's + differential of both semantic models against cel-go and the compiled code")
CLAIMS["C14"] = dict(
    text="Theorems C14_isolated / C14_order_insensitive / C14_pure on the GeneratorMemory state machine (Gen/Memory.v): whatever memory earlier structs, "
         "packages or runs left and in whatever order packages obtain the mutex, a struct's declarations are those of generating it alone. Tie: the rebuilt "
         "govalid on packages reusing struct/field names: alone vs together, GOMAXPROCS 1/2/16, repeated, subsets and orders, directory and single-file "
         "forms, second and third run, directory snapshots, permuted declarations, and a -race build. Partial: scheduler and race detector are not modelled.",
    ref="DESIGN.md §5 C14", note="Trusted: Coq kernel; the state-machine abstraction of the unsynchronised-map/mutex code; x/tools singlechecker, go/packages.",
    technique="Coq proof on a state-machine model of the generator memory + differential runs of the rebuilt CLI")
CLAIMS["C18"] = dict(
    text="Theorems C18_spelling / C18_output_unchanged / C18_idempotent / C18_only_marker_lines / C18_lookalikes_preserved / C18_dry_run_writes_nothing / "
         "C18_second_run_is_noop about Misc/Migrate.v (with a tokenizer state machine standing for go/scanner) and Gen/Template.v. Tie: synthesized files "
         "(both spellings, 5 indentations, LF/CRLF/mixed, missing final newline, look-alikes in raw strings, block comments, string literals, trailing "
         "comments, tokenizer traps) through the rebuilt `govalid migrate` (--dry-run, migrate, migrate again) compared byte for byte with the extracted "
         "model; generated validators for both spellings and for the migrated package byte-compared.",
    ref="DESIGN.md §5 C18", note="Trusted: Coq kernel, extraction, OCaml driver, hand-written model of migrate.go + go/scanner (validated by the differential), go/packages.",
    technique="Coq proof about an executable model + byte-for-byte differential with the rebuilt CLI")
CLAIMS["C20"] = dict(
    text="Theorems C20_next_iff(_ctx) / C20_rejected(_ctx) / C20_cancelled_gives_408 / C20_never_both about Misc/Middleware.v, a model of both handlers as "
         "functions of two oracles (does the body decode; what does validation return). Tie: net/http/httptest runs of both variants on ~1.3e3 (body, "
         "variant, request-context state, type) combinations including the repository's fixture type; oracle values are obtained by direct calls in the same process.",
    ref="DESIGN.md §5 C20", note="Trusted: Coq kernel, extraction, OCaml driver, hand-written model of middleware.go; encoding/json, net/http and errors.Is are oracles.",
    technique="Coq proof about an executable model + httptest differential")

NOT_YET = ("check not built yet (work in progress; will be claimed once its Coq model, theorems and correspondence "
           "check exist)")

checks = []
for p in props:
    pid = p["id"]
    if pid not in CLAIMS:
        continue
    c = CLAIMS[pid]
    checks.append({
        "property_id": pid,
        "quick_cmd": "bin/check %s --tier quick" % pid,
        "thorough_cmd": "bin/check %s --tier thorough" % pid,
        "evidence_file": "/verif/evidence/%s.json" % pid,
        "replay_cmd_template": "bin/check %s --replay {path}" % pid,
        "engine": "coq-model+differential",
        "level_claimed": {"category": c.get("category", "proof"), "text": c["text"], "design_ref": c["ref"]},
        "level_note": c["note"],
        "technique": c["technique"],
    })
na = [{"property_id": p["id"], "reason": NOT_YET} for p in props if p["id"] not in CLAIMS]
m = {
    "version": 1,
    "setup_cmd": "bin/setup",
    "hooks": {"guard": "verif",
              "enable": "go build -tags verif (add-only file validation/validationhelper/verif_export.go)",
              "baseline_off_cmd": "bin/baseline_off",
              "source_commits": ["15ffbc7", "6c6906e"],
              "add_only": True},
    "engines": [{"name": "coq-model+differential", "path": "/verif/bin/check",
                 "serves_properties": [c["property_id"] for c in checks],
                 "kind_free_text": "Coq 8.16.1 development (coq/), extracted OCaml model (ocaml/), Go harness (harness/), "
                                   "python orchestrator (bin/check, lib/)"}],
    "checks": checks,
    "not_applicable": na,
    "notes": "See DESIGN.md. fix: commits in /repo are listed in known_findings.json (status fixed).",
}
json.dump(m, open(os.path.join(V, "MANIFEST.json"), "w"), indent=1)
print("claimed:", [c["property_id"] for c in checks])
