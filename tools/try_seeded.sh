#!/bin/sh
# try_seeded.sh <patch.diff> <Cxx> [more Cxx...] : apply the patch to /repo, run the checks, undo it.
P=$1; shift
cd /repo && git apply "$P" || { echo "patch does not apply to /repo"; exit 2; }
for c in "$@"; do
  (cd /verif && bin/check $c > /tmp/try_$c.out 2>/tmp/try_$c.err; echo "$c exit=$? $(grep -c '^VIOLATION' /tmp/try_$c.out) violation lines"; grep '^VIOLATION' /tmp/try_$c.out | head -3)
done
cd /repo && git checkout -- . && git status --short | head -3
